package main

import (
	"context"
	"encoding/base64"
	"encoding/json"
	"fmt"
	"os"
	"sort"
	"strings"
	"sync"
	"sync/atomic"
	"syscall"
	"time"

	"github.com/robbyt/go-supervisor/supervisor"
)

// C06: the supervisor's state cache and its subscribers.  Scripted Stateable runnables (state changes
// with duplicates and bursts on a millisecond grid, a configurable delay before GetStateChan
// registers the supervisor's subscription), subscribers that come and go, reloads, then a sample of
// GetStateMap() against GetState() at rest, a clean shutdown and a final sample.

func init() { commands["statemap"] = runStateMap }

type StStep struct {
	AtMs  int    `json:"at"`
	State string `json:"s"`
}

type StRun struct {
	SubDelayMs int      `json:"subDelay"` // GetStateChan blocks this long before it registers (late subscription)
	Script     []StStep `json:"script"`   // emissions after Run began (a repeated state is a duplicate emission)
	Reloadable bool     `json:"rel"`      // Reload(): Reloading, then back to the previous state
}

type StSub struct {
	ArriveMs int    `json:"arrive"` // -1: before Run
	LeaveMs  int    `json:"leave"`  // 0: stays until after the shutdown
	Slow     bool   `json:"slow"`   // reads one snapshot every 3 ms
	Kind     string `json:"kind"`   // ctx (SubscribeStateChanges) | chan (AddStateSubscriber + callback)
	// Hook: while this subscription is being registered (from inside the supervisor's call of the first scripted
	// runnable's String()) that runnable changes to this state and waits until the supervisor's map shows it
	Hook string `json:"hook,omitempty"`
}

type StScenario struct {
	Runs    []StRun `json:"runs"`
	Plain   int     `json:"plain"` // additional runnables without state
	Subs    []StSub `json:"subs"`
	HupAtMs []int   `json:"hup"`
	End     string  `json:"end"` // term | cancel | shutdown
}

type scriptRunnable struct {
	i      int
	spec   StRun
	mu     sync.Mutex
	state  string
	subs   []chan string
	emits  []string // every emission, in order
	stop   chan struct{}
	once   sync.Once
	runAt  time.Time
	atStop string // state when Stop returned
	hook   atomic.Pointer[func()]
}

func (r *scriptRunnable) String() string {
	if f := r.hook.Swap(nil); f != nil {
		(*f)()
	}
	return fmt.Sprintf("r%d", r.i)
}

func (r *scriptRunnable) emit(s string) {
	r.mu.Lock()
	r.state = s
	r.emits = append(r.emits, s)
	for _, ch := range r.subs {
		ch <- s // buffered far beyond any script: the contract "every change, in order" is kept
	}
	r.mu.Unlock()
}

func (r *scriptRunnable) Run(ctx context.Context) error {
	r.runAt = time.Now()
	for _, st := range r.spec.Script {
		if d := time.Duration(st.AtMs)*time.Millisecond - time.Since(r.runAt); d > 0 {
			select {
			case <-time.After(d):
			case <-r.stop:
			case <-ctx.Done():
			}
		}
		select {
		case <-r.stop:
		case <-ctx.Done():
		default:
			r.emit(st.State)
			continue
		}
		break
	}
	select {
	case <-r.stop:
	case <-ctx.Done():
	}
	return nil
}

func (r *scriptRunnable) Stop() {
	r.once.Do(func() {
		r.emit("Stopping")
		close(r.stop)
		r.emit("Stopped")
	})
	r.mu.Lock()
	r.atStop = r.state
	r.mu.Unlock()
}

func (r *scriptRunnable) GetState() string {
	r.mu.Lock()
	defer r.mu.Unlock()
	return r.state
}

// IsRunning: readiness, once reached, stays (a script may later return to "New"; the supervisor's start-up gate
// is not what this leg is about)
func (r *scriptRunnable) IsRunning() bool {
	r.mu.Lock()
	defer r.mu.Unlock()
	for _, e := range r.emits {
		if e != "New" && e != "Booting" {
			return true
		}
	}
	return false
}

func (r *scriptRunnable) GetStateChan(ctx context.Context) <-chan string {
	sleepMs(r.spec.SubDelayMs)
	ch := make(chan string, 4096)
	r.mu.Lock()
	ch <- r.state // the current state first
	r.subs = append(r.subs, ch)
	r.mu.Unlock()
	return ch
}

type scriptReloadable struct{ *scriptRunnable }

func (r scriptReloadable) Reload(context.Context) {
	prev := r.GetState()
	r.emit("Reloading")
	time.Sleep(500 * time.Microsecond)
	r.emit(prev)
}

type stSubResult struct {
	count       int
	last        supervisor.StateMap
	closed      bool
	closedEarly bool
}

func mapStr(m map[string]string) string {
	ks := make([]string, 0, len(m))
	for k := range m {
		ks = append(ks, k)
	}
	sort.Strings(ks)
	ps := make([]string, len(ks))
	for i, k := range ks {
		ps[i] = k + ":" + m[k]
	}
	if len(ps) == 0 {
		return "none"
	}
	return strings.Join(ps, ",")
}

func runStScenario(sc StScenario) string {
	rec := &evRec{t0: time.Now()}
	var live atomic.Int32
	teardown := make(chan struct{})
	defer close(teardown)
	var rs []supervisor.Runnable
	var scripted []*scriptRunnable
	for i, sp := range sc.Runs {
		r := &scriptRunnable{i: i, spec: sp, state: "New", stop: make(chan struct{})}
		scripted = append(scripted, r)
		if sp.Reloadable {
			rs = append(rs, scriptReloadable{r})
		} else {
			rs = append(rs, r)
		}
	}
	for i := 0; i < sc.Plain; i++ {
		rs = append(rs, mkRunnable(newBase(100+i, MockSpec{Caps: "0100", Stop: "f", Outcome: "n"}, rec, &live, teardown)))
	}
	ctx, cancel := context.WithCancel(context.Background())
	defer cancel()
	sv, err := supervisor.New(supervisor.WithContext(ctx), supervisor.WithRunnables(rs...), supervisor.WithStartupInitial(500*time.Microsecond),
		supervisor.WithStartupTimeout(2*time.Second), supervisor.WithShutdownTimeout(2*time.Second), supervisor.WithLogHandler(quietLog))
	must(err)

	results := make([]*stSubResult, len(sc.Subs))
	cancels := make([]func(), len(sc.Subs))
	var subWg sync.WaitGroup
	var cancelled []atomic.Bool = make([]atomic.Bool, len(sc.Subs))
	startSub := func(k int) {
		sb := sc.Subs[k]
		res := &stSubResult{}
		results[k] = res
		var ch <-chan supervisor.StateMap
		if sb.Hook != "" && len(scripted) > 0 {
			r0 := scripted[0]
			f := func() {
				r0.emit(sb.Hook)
				for i := 0; i < 200; i++ { // at most 40 ms: the monitor is subscribed and takes the change at once
					if sv.GetStateMap()["r0"] == sb.Hook {
						break
					}
					time.Sleep(200 * time.Microsecond)
				}
			}
			r0.hook.Store(&f)
		}
		if sb.Kind == "chan" {
			c := make(chan supervisor.StateMap, 10)
			un := sv.AddStateSubscriber(c)
			ch = c
			var once sync.Once
			cancels[k] = func() { once.Do(func() { cancelled[k].Store(true); un(); close(c) }) } // the documented use: unsubscribe, then the owner closes
		} else {
			c, cf := context.WithCancel(context.Background())
			ch = sv.SubscribeStateChanges(c)
			cancels[k] = func() { cancelled[k].Store(true); cf() }
		}
		subWg.Add(1)
		go func() {
			defer subWg.Done()
			for m := range ch {
				res.count++
				res.last = m
				if sb.Slow {
					time.Sleep(3 * time.Millisecond)
				}
			}
			res.closed = true
			res.closedEarly = !cancelled[k].Load()
		}()
	}
	for k, sb := range sc.Subs {
		if sb.ArriveMs < 0 {
			startSub(k)
		}
	}
	done := make(chan error, 1)
	t0 := time.Now()
	go func() {
		err := sv.Run()
		if os.Getenv("VH_DEBUG") != "" {
			fmt.Fprintln(os.Stderr, "Run returned:", err, "after", time.Since(t0))
		}
		done <- err
	}()
	// timed actions: subscriber arrivals / departures and SIGHUPs
	type act struct {
		at int
		f  func()
	}
	var acts []act
	for k, sb := range sc.Subs {
		k := k
		if sb.ArriveMs >= 0 {
			acts = append(acts, act{sb.ArriveMs, func() { startSub(k) }})
		}
		if sb.LeaveMs > 0 {
			acts = append(acts, act{sb.LeaveMs, func() {
				if cancels[k] != nil {
					cancels[k]()
				}
			}})
		}
	}
	for _, h := range sc.HupAtMs {
		acts = append(acts, act{h, func() { sv.SendSignal(syscall.SIGHUP) }})
	}
	sort.SliceStable(acts, func(i, j int) bool { return acts[i].at < acts[j].at })
	lastAt := 0
	for _, r := range sc.Runs {
		for _, st := range r.Script {
			if st.AtMs+r.SubDelayMs > lastAt {
				lastAt = st.AtMs + r.SubDelayMs
			}
		}
		if r.SubDelayMs > lastAt {
			lastAt = r.SubDelayMs
		}
	}
	for _, a := range acts {
		if d := time.Duration(a.at)*time.Millisecond - time.Since(t0); d > 0 {
			time.Sleep(d)
		}
		a.f()
		if a.at > lastAt {
			lastAt = a.at
		}
	}
	// at rest: every script has ended, every delayed subscription has registered, reloads are over
	if d := time.Duration(lastAt+len(sc.Runs)*2+12)*time.Millisecond - time.Since(t0); d > 0 {
		time.Sleep(d)
	}
	maxDelay := 0
	for k := 0; k < 3000; k++ { // a slow machine: until every script has really been played
		all := true
		for _, r := range scripted {
			r.mu.Lock()
			if len(r.emits) < len(r.spec.Script) {
				all = false
			}
			r.mu.Unlock()
			if r.spec.SubDelayMs > maxDelay {
				maxDelay = r.spec.SubDelayMs
			}
		}
		if all {
			break
		}
		time.Sleep(time.Millisecond)
	}
	time.Sleep(time.Duration(maxDelay+6) * time.Millisecond)
	var prev string
	for k := 0; k < 200; k++ { // until two consecutive samples agree (nothing in flight)
		cur := mapStr(sv.GetStateMap())
		if cur == prev {
			break
		}
		prev = cur
		time.Sleep(3 * time.Millisecond)
	}
	quietMap := sv.GetStateMap()
	{
		// not at rest after all?  A goroutine of the supervisor may simply not have been scheduled yet (busy
		// machine): when the sample disagrees with the runnables, look again for a while and keep the last look
		agree := func(m supervisor.StateMap) bool {
			for _, r := range scripted {
				if m[r.String()] != r.GetState() {
					return false
				}
			}
			return true
		}
		for k := 0; k < 100 && !agree(quietMap); k++ {
			time.Sleep(5 * time.Millisecond)
			quietMap = sv.GetStateMap()
		}
	}
	quietTrue := map[string]string{}
	bound := 1
	for _, r := range scripted {
		quietTrue[r.String()] = r.GetState()
		r.mu.Lock()
		p := "New"
		for _, e := range r.emits {
			if e != p {
				bound++
			}
			p = e
		}
		r.mu.Unlock()
	}
	// a reload pass broadcasts once more per reloadable runnable whose entry its own store changed (the monitor
	// was behind): at most one additional snapshot per SIGHUP and reloadable runnable
	for _, r := range sc.Runs {
		if r.Reloadable {
			bound += len(sc.HupAtMs)
		}
		bound++ // the snapshot that follows the launch store
	}
	time.Sleep(2 * time.Millisecond)
	type subQ struct{ eq bool }
	subEq := make([]bool, len(sc.Subs))
	subCountQ := make([]int, len(sc.Subs))
	for k := range sc.Subs {
		if results[k] != nil {
			subEq[k] = mapStr(results[k].last) == mapStr(quietMap)
			subCountQ[k] = results[k].count
		}
	}
	// clean shutdown
	switch sc.End {
	case "term":
		sv.SendSignal(syscall.SIGTERM)
	case "cancel":
		cancel()
	default:
		go sv.Shutdown()
	}
	hung := false
	select {
	case <-done:
	case <-time.After(5 * time.Second):
		hung = true
	}
	finalMap := sv.GetStateMap()
	atStop := map[string]string{}
	for _, r := range scripted {
		r.mu.Lock()
		atStop[r.String()] = r.atStop
		r.mu.Unlock()
	}
	for k := range sc.Subs {
		if cancels[k] != nil {
			cancels[k]()
		}
	}
	waitCh := make(chan struct{})
	go func() { subWg.Wait(); close(waitCh) }()
	select {
	case <-waitCh:
	case <-time.After(2 * time.Second):
	}
	var late []string
	for i, r := range sc.Runs {
		// a scripted change falls between Run's start and the delayed registration of the subscription
		for _, st := range r.Script {
			if st.AtMs <= r.SubDelayMs+1 && r.SubDelayMs > 0 {
				late = append(late, fmt.Sprint(i))
				break
			}
		}
	}
	var subs []string
	for k, sb := range sc.Subs {
		res := results[k]
		if res == nil {
			res = &stSubResult{}
		}
		b := func(x bool) string {
			if x {
				return "1"
			}
			return "0"
		}
		stayed := sb.LeaveMs == 0 && results[k] != nil
		subs = append(subs, fmt.Sprintf("%s.slow%s.stayed%s.full%s.n%d.eq%s.closed%s.early%s", sb.Kind, b(sb.Slow), b(stayed), b(sb.ArriveMs < 0),
			subCountQ[k], b(subEq[k]), b(res.closed), b(res.closedEarly)))
	}
	enc := func(l []string) string {
		if len(l) == 0 {
			return "none"
		}
		return strings.Join(l, ",")
	}
	bs, _ := json.Marshal(sc)
	return fmt.Sprintf("c06holds n=%d hung=%v quietmap=%s quiettrue=%s finalmap=%s atstop=%s bound=%d late=%s subs=%s scn~%s",
		len(sc.Runs), hung, mapStr(quietMap), mapStr(quietTrue), mapStr(finalMap), mapStr(atStop), bound, enc(late), enc(subs),
		base64.RawURLEncoding.EncodeToString(bs))
}

func genStScenario(r interface{ IntN(int) int }) StScenario {
	sc := StScenario{Plain: r.IntN(2), End: pick(r, []string{"term", "cancel", "shutdown"})}
	n := 1 + r.IntN(3)
	states := []string{"Running", "Reloading", "Degraded", "Busy", "Running"}
	for i := 0; i < n; i++ {
		run := StRun{Reloadable: r.IntN(3) == 0}
		if r.IntN(6) == 0 {
			run.SubDelayMs = 2 + r.IntN(8) // late subscription
		}
		run.Script = []StStep{{0, "Booting"}, {r.IntN(2), "Running"}}
		t := 1
		k := r.IntN(6)
		for j := 0; j < k; j++ {
			switch r.IntN(4) {
			case 0: // burst: same millisecond
			default:
				t += 1 + r.IntN(6)
			}
			st := pick(r, states)
			if r.IntN(9) == 0 {
				st = "New" // back to the state recorded at launch (what a late subscriber's bookkeeping must cope with)
			}
			if r.IntN(4) == 0 {
				st = run.Script[len(run.Script)-1].State // duplicate emission
			}
			run.Script = append(run.Script, StStep{t, st})
		}
		sc.Runs = append(sc.Runs, run)
	}
	ns := r.IntN(4)
	for i := 0; i < ns; i++ {
		sb := StSub{ArriveMs: -1, Kind: pick(r, []string{"ctx", "ctx", "chan"}), Slow: r.IntN(5) == 0}
		if r.IntN(2) == 0 {
			sb.ArriveMs = r.IntN(20)
		}
		if r.IntN(3) == 0 {
			a := sb.ArriveMs
			if a < 0 {
				a = 0
			}
			sb.LeaveMs = a + 1 + r.IntN(20)
		}
		// only with a monitor that subscribes at once: the hook waits for the supervisor's map to show the state
		if sb.ArriveMs >= 2 && r.IntN(3) == 0 && len(sc.Runs) > 0 && sc.Runs[0].SubDelayMs == 0 {
			sb.Hook = pick(r, []string{"Reloading", "Running", "Degraded"})
		}
		sc.Subs = append(sc.Subs, sb)
	}
	for i := r.IntN(3); i > 0; i-- {
		sc.HupAtMs = append(sc.HupAtMs, 3+r.IntN(25))
	}
	return sc
}

var stCorpus = []StScenario{
	// a subscription registered while a runnable changes state (from inside the supervisor's own String() call): the
	// subscriber must still end up with the quiescent map
	{Runs: []StRun{{Script: []StStep{{0, "Booting"}, {1, "Running"}}}}, Subs: []StSub{{ArriveMs: 6, Kind: "chan", Hook: "Degraded"}}, End: "term"},
	{Runs: []StRun{{Script: []StStep{{0, "Booting"}, {1, "Running"}}}, {Script: []StStep{{0, "Running"}}}}, Subs: []StSub{{ArriveMs: 5, Kind: "ctx", Hook: "Reloading"}, {ArriveMs: -1, Kind: "ctx"}}, End: "shutdown"},
	// late subscription: the runnable is Running before the supervisor's GetStateChan registers (C06-F1)
	{Runs: []StRun{{SubDelayMs: 6, Script: []StStep{{0, "Booting"}, {1, "Running"}}}}, Subs: []StSub{{ArriveMs: -1, Kind: "ctx"}}, End: "term"},
	// late subscription, then the runnable returns to the state that was recorded at its launch
	{Runs: []StRun{{SubDelayMs: 6, Script: []StStep{{0, "Booting"}, {1, "Running"}, {14, "New"}}}}, Subs: []StSub{{ArriveMs: -1, Kind: "ctx"}}, End: "term"},
	{Runs: []StRun{{SubDelayMs: 5, Script: []StStep{{0, "Booting"}, {1, "Running"}, {12, "New"}, {16, "Running"}, {20, "Running"}}}, {Script: []StStep{{0, "Booting"}, {0, "Running"}}}}, Subs: []StSub{{ArriveMs: -1, Kind: "chan"}}, End: "shutdown"},
	// duplicates and a burst; a subscriber from the start, one that leaves, one slow
	{Runs: []StRun{{Script: []StStep{{0, "Booting"}, {1, "Running"}, {3, "Running"}, {3, "Busy"}, {3, "Running"}, {8, "Degraded"}}}, {Script: []StStep{{0, "Booting"}, {0, "Running"}}, Reloadable: true}},
		Subs: []StSub{{ArriveMs: -1, Kind: "ctx"}, {ArriveMs: 2, LeaveMs: 6, Kind: "ctx"}, {ArriveMs: -1, Kind: "chan", Slow: true}}, HupAtMs: []int{5, 5, 12}, End: "shutdown"},
}

func runStateMap(o Opts) {
	e := NewEmitter(o.Out, "statemap")
	defer e.Close(o.Out, "statemap", nil)
	var jobs []StScenario
	if o.Replay != "" {
		for _, l := range replayLines(o.Replay) {
			for _, w := range strings.Fields(l) {
				if strings.HasPrefix(w, "scn~") {
					b, err := base64.RawURLEncoding.DecodeString(strings.TrimPrefix(w, "scn~"))
					must(err)
					var sc StScenario
					must(json.Unmarshal(b, &sc))
					jobs = append(jobs, sc)
				}
			}
		}
	} else {
		jobs = append(jobs, stCorpus...)
		r := newRand(o.Seed, 6)
		n := 600
		if o.Thorough {
			n = 12000
		}
		if o.N > 0 {
			n = o.N
		}
		for i := 0; i < n; i++ {
			jobs = append(jobs, genStScenario(r))
		}
	}
	lines := make([]string, len(jobs))
	var wg sync.WaitGroup
	sem := make(chan struct{}, 12)
	for i := range jobs {
		wg.Add(1)
		sem <- struct{}{}
		go func(i int) {
			defer wg.Done()
			defer func() { <-sem }()
			lines[i] = runStScenario(jobs[i])
		}(i)
	}
	wg.Wait()
	for i, l := range lines {
		e.Case(l, "true")
		f := strings.Fields(l)
		e.Stats[f[1]]++
		if len(jobs[i].Subs) > 0 {
			e.Stats["with-subscribers"]++
		}
		if len(jobs[i].HupAtMs) > 0 {
			e.Stats["with-reloads"]++
		}
		for _, w := range f {
			if strings.HasPrefix(w, "late=") && w != "late=none" {
				e.Stats["late-subscription"]++
			}
		}
		e.Nontrivial(strings.Join(f[1:len(f)-1], " "))
	}
}
