package main

import (
	"context"
	"fmt"
	"os"
	"os/exec"
	"strconv"
	"sync/atomic"
	"time"

	"github.com/robbyt/go-supervisor/supervisor"
)

// C02 (finding C02-F4): Shutdown() overlapping the start-up sequence on a busy machine.  Run() adds to
// the supervisor's WaitGroup while Shutdown() waits on it; the Go runtime panics when an addition falls
// between the counter reaching zero and the waiter waking up.  The window is a scheduling delay, so the
// program oversubscribes a few CPUs with spinning goroutines.  A panic kills the process: the stress
// runs in a child process and the parent reports its output.

func init() { commands["wgstress"] = runWgStress }

type quickRunnable struct {
	stop chan struct{}
	up   atomic.Bool
}

func (p *quickRunnable) String() string { return "q" }
func (p *quickRunnable) Run(ctx context.Context) error {
	p.up.Store(true)
	select {
	case <-ctx.Done():
	case <-p.stop:
	}
	return nil
}
func (p *quickRunnable) Stop() {
	select {
	case <-p.stop:
	default:
		close(p.stop)
	}
}
func (p *quickRunnable) IsRunning() bool  { return p.up.Load() }
func (p *quickRunnable) GetState() string { return "Running" }
func (p *quickRunnable) GetStateChan(ctx context.Context) <-chan string {
	ch := make(chan string, 1)
	ch <- "Running"
	go func() { <-ctx.Done(); close(ch) }()
	return ch
}

func wgStressChild(n int) {
	for i := 0; i < 6; i++ { // a busy machine: goroutines wait for a CPU
		go func() {
			for {
			}
		}()
	}
	for it := 0; it < n; it++ {
		var rs []supervisor.Runnable
		for i := 0; i < 12; i++ {
			rs = append(rs, &quickRunnable{stop: make(chan struct{})})
		}
		sv, err := supervisor.New(supervisor.WithContext(context.Background()), supervisor.WithRunnables(rs...),
			supervisor.WithStartupInitial(20*time.Microsecond), supervisor.WithStartupTimeout(time.Second),
			supervisor.WithShutdownTimeout(time.Second), supervisor.WithLogHandler(quietLog))
		must(err)
		done := make(chan struct{})
		go func() { _ = sv.Run(); close(done) }()
		time.Sleep(time.Duration(50+it%300) * time.Microsecond) // Run is somewhere in its start-up sequence
		sv.Shutdown()                                           // public API, e.g. called from an admin endpoint
		select {
		case <-done:
		case <-time.After(180 * time.Second):
			fmt.Fprintln(os.Stderr, "panic: wgstress: Run() did not return within 180 s of Shutdown() (iteration", it, ") go-supervisor/")
			os.Exit(3)
		}
	}
}

func runWgStress(o Opts) {
	n := 2500
	if o.Thorough {
		n = 40000
	}
	if o.N > 0 {
		n = o.N
	}
	if os.Getenv("VH_WGCHILD") != "" {
		wgStressChild(n)
		return
	}
	e := NewEmitter(o.Out, "wgstress")
	defer e.Close(o.Out, "wgstress", nil)
	self, err := os.Executable()
	must(err)
	procs := 3
	type res struct {
		out []byte
		err error
	}
	ch := make(chan res, procs)
	for p := 0; p < procs; p++ {
		go func() {
			cmd := exec.Command(self, "wgstress", "--out", o.Out, "--n", strconv.Itoa(n/procs))
			cmd.Env = append(os.Environ(), "VH_WGCHILD=1", "GOMAXPROCS=4")
			out, err := cmd.CombinedOutput()
			ch <- res{out, err}
		}()
	}
	for p := 0; p < procs; p++ {
		r := <-ch
		if r.err != nil {
			// the child's panic (with the library frames) is the failing input
			os.Stderr.Write(r.out)
			os.Exit(3)
		}
		e.Stats["iterations"] += n / procs
		e.Case(fmt.Sprintf("raceprog wgstress proc=%d iterations=%d", p, n/procs), "completed")
		e.Nontrivial(fmt.Sprintf("wgstress-%d-%d", o.Seed, p))
	}
}
