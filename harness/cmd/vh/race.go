package main

import (
	"context"
	"fmt"
	"io"
	"log/slog"
	"net/http"
	"os"
	"runtime"
	"sync"
	"sync/atomic"
	"syscall"
	"time"

	"github.com/robbyt/go-supervisor/runnables/composite"
	"github.com/robbyt/go-supervisor/runnables/httpcluster"
	"github.com/robbyt/go-supervisor/runnables/httpserver"
	"github.com/robbyt/go-supervisor/supervisor"
)

func init() { commands["race"] = runRace }

// hammer runs k goroutines that each pick random calls from `calls` until the deadline.
func hammer(seed uint64, k int, d time.Duration, calls []func()) {
	var wg sync.WaitGroup
	deadline := time.Now().Add(d)
	for g := 0; g < k; g++ {
		wg.Add(1)
		go func(g int) {
			defer wg.Done()
			r := newRand(seed, uint64(100+g))
			for time.Now().Before(deadline) {
				calls[r.IntN(len(calls))]()
				if r.IntN(4) == 0 {
					time.Sleep(time.Duration(r.IntN(300)) * time.Microsecond)
				}
			}
		}(g)
	}
	wg.Wait()
}

// flapper is a Stateable runnable whose state changes every few dozen microseconds while it runs.
type flapper struct {
	stop  chan struct{}
	once  sync.Once
	state atomic.Value
	mu    sync.Mutex
	subs  map[chan string]struct{}
}

func newFlapper() *flapper {
	f := &flapper{stop: make(chan struct{}), subs: map[chan string]struct{}{}}
	f.state.Store("New")
	return f
}
func (f *flapper) String() string { return "flapper" }
func (f *flapper) set(s string) {
	f.state.Store(s)
	f.mu.Lock()
	for ch := range f.subs {
		select {
		case ch <- s:
		default:
		}
	}
	f.mu.Unlock()
}
func (f *flapper) Run(ctx context.Context) error {
	f.set("Running")
	t := time.NewTicker(40 * time.Microsecond)
	defer t.Stop()
	for i := 0; ; i++ {
		select {
		case <-ctx.Done():
			f.set("Stopped")
			return nil
		case <-f.stop:
			f.set("Stopped")
			return nil
		case <-t.C:
			f.set([]string{"Running", "Reloading"}[i%2])
		}
	}
}
func (f *flapper) Stop()            { f.once.Do(func() { close(f.stop) }) }
func (f *flapper) GetState() string { return f.state.Load().(string) }
func (f *flapper) IsRunning() bool  { s := f.GetState(); return s == "Running" || s == "Reloading" }
func (f *flapper) GetStateChan(ctx context.Context) <-chan string {
	ch := make(chan string, 4)
	ch <- f.GetState()
	f.mu.Lock()
	f.subs[ch] = struct{}{}
	f.mu.Unlock()
	go func() {
		<-ctx.Done()
		f.mu.Lock()
		delete(f.subs, ch)
		close(ch)
		f.mu.Unlock()
	}()
	return ch
}

func raceSupervisor(seed uint64) int {
	rec := &evRec{t0: time.Now()}
	var live atomic.Int32
	teardown := make(chan struct{})
	defer close(teardown)
	specs := []MockSpec{{Caps: "1100", Stop: "f", Outcome: "n", ReadyPolls: 1, ReloadMs: 1}, {Caps: "0110", Stop: "f", Outcome: "n", ReloadMs: 0},
		{Caps: "1001", Stop: "f", Outcome: "n", ReadyPolls: 0}}
	var rs []supervisor.Runnable
	for i, sp := range specs {
		rs = append(rs, mkRunnable(newBase(i, sp, rec, &live, teardown)))
	}
	rs = append(rs, newFlapper())
	ctx, cancel := context.WithCancel(context.Background())
	defer cancel()
	sv, err := supervisor.New(supervisor.WithContext(ctx), supervisor.WithRunnables(rs...), supervisor.WithStartupInitial(time.Millisecond),
		supervisor.WithShutdownTimeout(300*time.Millisecond), supervisor.WithLogHandler(slog.NewTextHandler(io.Discard, nil)))
	must(err)
	done := make(chan struct{})
	go func() { _ = sv.Run(); close(done) }()
	calls := []func(){
		func() { _ = sv.GetStateMap() },
		func() { _ = sv.GetCurrentStates() },
		func() { _ = sv.GetCurrentState(rs[0]) },
		func() { _ = sv.String() },
		func() { sv.SendSignal(syscall.SIGUSR1) },
		func() { sv.SendSignal(syscall.SIGHUP) },
		func() {
			c, cf := context.WithCancel(context.Background())
			ch := sv.SubscribeStateChanges(c)
			select {
			case <-ch:
			case <-time.After(200 * time.Microsecond):
			}
			cf()
		},
		func() { // a subscriber that reads a few snapshots and leaves while broadcasts are in flight
			c, cf := context.WithCancel(context.Background())
			ch := sv.SubscribeStateChanges(c)
			for i := 0; i < 3; i++ {
				select {
				case <-ch:
				case <-time.After(300 * time.Microsecond):
				}
			}
			cf()
		},
		func() {
			ch := make(chan supervisor.StateMap, 1)
			un := sv.AddStateSubscriber(ch)
			un()
		},
	}
	hammer(seed, 4, 60*time.Millisecond, calls)
	go sv.Shutdown()
	hammer(seed+1, 3, 15*time.Millisecond, calls[:4])
	select {
	case <-done:
	case <-time.After(3 * time.Second):
	}
	return 1
}

func raceComposite(seed uint64) int {
	rec := &evRec{t0: time.Now()}
	var live atomic.Int32
	teardown := make(chan struct{})
	defer close(teardown)
	var children []supervisor.Runnable
	for i, n := range []string{"a", "b", "c", "d"} {
		children = append(children, childWC{&compChild{idx: i, spec: ChildSpec{Name: n, Stop: "f", Cap: "wc"}, rec: rec, stopCh: make(chan struct{}),
			started: make(chan struct{}), done: make(chan struct{}), failCh: make(chan string, 1), teardown: teardown, live: &live}})
	}
	var k atomic.Int32
	cb := func() (*composite.Config[supervisor.Runnable], error) {
		n := int(k.Add(1))
		var es []composite.RunnableEntry[supervisor.Runnable]
		for i := 0; i <= n%4; i++ { // membership grows and shrinks
			es = append(es, composite.RunnableEntry[supervisor.Runnable]{Runnable: children[i], Config: n})
		}
		return composite.NewConfig("c", es)
	}
	rn, err := composite.NewRunner(cb, composite.WithLogHandler[supervisor.Runnable](slog.NewTextHandler(io.Discard, nil)))
	must(err)
	ctx, cancel := context.WithCancel(context.Background())
	defer cancel()
	done := make(chan struct{})
	go func() { _ = rn.Run(ctx); close(done) }()
	calls := []func(){
		func() { _ = rn.GetState() }, func() { _ = rn.IsRunning() }, func() { _ = rn.String() }, func() { _ = rn.GetChildStates() },
		func() { rn.Reload(context.Background()) },
		func() {
			c, cf := context.WithCancel(context.Background())
			ch := rn.GetStateChan(c)
			go func() { // a subscriber that keeps up (an idle one delays broadcasts by design)
				for range ch {
				}
			}()
			time.Sleep(100 * time.Microsecond)
			cf()
		},
	}
	hammer(seed, 4, 60*time.Millisecond, calls)
	go rn.Stop()
	hammer(seed+1, 3, 10*time.Millisecond, calls[:4])
	select {
	case <-done:
	case <-time.After(3 * time.Second):
		if os.Getenv("VH_DEBUG") != "" {
			buf := make([]byte, 1<<20)
			os.Stderr.Write(buf[:runtime.Stack(buf, true)])
		}
	}
	return 1
}

func raceHTTP(seed uint64) int {
	addrs := []string{freeAddr(), freeAddr()}
	mk := func(n int) *httpserver.Config {
		rt, _ := httpserver.NewRouteFromHandlerFunc("r", "/", func(w http.ResponseWriter, _ *http.Request) { _, _ = w.Write([]byte("x")) })
		// every second reload also moves the listen address (whatever a runner derives from its address is then
		// recomputed while the queries below are in flight)
		addr := addrs[(n/2)%2]
		c, err := httpserver.NewConfig(addr, httpserver.Routes{*rt}, httpserver.WithDrainTimeout(30*time.Millisecond),
			httpserver.WithReadTimeout(time.Duration(1000+n%2)*time.Millisecond))
		must(err)
		return c
	}
	var k atomic.Int32
	cb := func() (*httpserver.Config, error) { return mk(int(k.Add(1))), nil }
	rn, err := httpserver.NewRunner(httpserver.WithConfigCallback(cb), httpserver.WithName("racy"), httpserver.WithLogHandler(slog.NewTextHandler(io.Discard, nil)))
	must(err)
	ctx, cancel := context.WithCancel(context.Background())
	// the context may be cancelled before or right at Run (start-up race)
	early := seed%3 == 0
	done := make(chan struct{})
	if early {
		cancel()
	}
	go func() { _ = rn.Run(ctx); close(done) }()
	calls := []func(){
		func() { _ = rn.GetState() }, func() { _ = rn.IsRunning() }, func() { _ = rn.String() },
		func() { rn.Reload(context.Background()) },
		func() {
			c, cf := context.WithCancel(context.Background())
			ch := rn.GetStateChan(c)
			go func() { // a subscriber that keeps up (an idle one delays broadcasts by design)
				for range ch {
				}
			}()
			time.Sleep(100 * time.Microsecond)
			cf()
		},
	}
	hammer(seed, 3, 50*time.Millisecond, calls[:3])
	if !early {
		hammer(seed+2, 3, 250*time.Millisecond, calls)
	}
	go rn.Stop()
	hammer(seed+1, 3, 10*time.Millisecond, calls[:3])
	cancel()
	select {
	case <-done:
	case <-time.After(4 * time.Second):
	}
	return 1
}

func raceCluster(seed uint64) int {
	rec := &evRec{t0: time.Now()}
	var live atomic.Int32
	var inst atomic.Int32
	factory := func(ctx context.Context, id string, cfg *httpserver.Config, _ slog.Handler) (httpcluster.VerifServerRunner, error) {
		s := &clServer{id: id, inst: int(inst.Add(1)), rec: rec, ready: true, stopCh: make(chan struct{}), started: make(chan struct{}), done: make(chan struct{}), live: &live}
		s.state.Store("New")
		return s, nil
	}
	rn, err := httpcluster.NewRunner(httpcluster.WithLogHandler(slog.NewTextHandler(io.Discard, nil)), httpcluster.VerifWithRunnerFactory(factory),
		httpcluster.WithRestartDelay(time.Millisecond))
	must(err)
	ctx, cancel := context.WithCancel(context.Background())
	defer cancel()
	done := make(chan struct{})
	go func() { _ = rn.Run(ctx); close(done) }()
	siphon := rn.GetConfigSiphon()
	var k atomic.Int32
	calls := []func(){
		func() { _ = rn.GetState() }, func() { _ = rn.IsRunning() }, func() { _ = rn.String() }, func() { _ = rn.GetServerCount() },
		func() {
			n := int(k.Add(1))
			m := map[string]*httpserver.Config{"a": planCfg(n % 3), "b": planCfg(1)}
			if n%2 == 0 {
				delete(m, "b")
			}
			select {
			case siphon <- m:
			case <-time.After(2 * time.Millisecond):
			}
		},
		func() {
			c, cf := context.WithCancel(context.Background())
			ch := rn.GetStateChan(c)
			go func() { // a subscriber that keeps up (an idle one delays broadcasts by design)
				for range ch {
				}
			}()
			time.Sleep(100 * time.Microsecond)
			cf()
		},
	}
	hammer(seed, 4, 60*time.Millisecond, calls)
	go rn.Stop()
	hammer(seed+1, 3, 15*time.Millisecond, calls[:4])
	select {
	case <-done:
	case <-time.After(3 * time.Second):
	}
	return 1
}

func runRace(o Opts) {
	e := NewEmitter(o.Out, "race")
	defer e.Close(o.Out, "race", nil)
	n := 6
	if o.Thorough {
		n = 60
	}
	if o.N > 0 {
		n = o.N
	}
	targets := []struct {
		name string
		f    func(uint64) int
	}{{"supervisor", raceSupervisor}, {"composite", raceComposite}, {"httpserver", raceHTTP}, {"httpcluster", raceCluster}}
	for i := 0; i < n; i++ {
		for _, t := range targets {
			seed := o.Seed*1000 + uint64(i)
			t0 := time.Now()
			t.f(seed)
			if d := time.Since(t0); d > 2*time.Second {
				e.Stats["slow:"+t.name]++
			}
			// a detected race makes the race-enabled binary exit non-zero with the report on stderr;
			// reaching this line means the program ran to the end
			e.Stats["target:"+t.name]++
			e.Case(fmt.Sprintf("raceprog %s seed=%d", t.name, seed), "completed")
			e.Nontrivial(fmt.Sprintf("%s-%d", t.name, seed))
		}
	}
}
