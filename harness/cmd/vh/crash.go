package main

import (
	"context"
	"errors"
	"fmt"
	"io"
	"log/slog"
	"net/http"
	"net/http/httptest"
	"sort"
	"strings"
	"sync"
	"time"

	"github.com/robbyt/go-supervisor/runnables/composite"
	"github.com/robbyt/go-supervisor/runnables/httpserver"
	"github.com/robbyt/go-supervisor/runnables/httpserver/middleware/headers"
	"github.com/robbyt/go-supervisor/runnables/httpserver/middleware/wildcard"
	"github.com/robbyt/go-supervisor/supervisor"
)

func init() { commands["crash"] = runCrash }

var discard = slog.NewTextHandler(io.Discard, nil)

// guarded runs f and reports "panic:<value>" if it panics.
func guarded(f func() string) (out string) {
	defer func() {
		if r := recover(); r != nil {
			out = "panic:" + strings.ReplaceAll(fmt.Sprint(r), " ", "_")
			if len(out) > 90 {
				out = out[:90]
			}
		}
	}()
	return f()
}

// muxPanics learns from the real ServeMux whether registering the patterns in this order panics.
func muxPanics(paths []string) (p bool) {
	defer func() {
		if recover() != nil {
			p = true
		}
	}()
	m := http.NewServeMux()
	for _, x := range paths {
		m.Handle(x, http.NotFoundHandler())
	}
	return false
}

var crashPaths = []string{"/", "/a", "/a/", "/a/{x}", "/a/{y}", "/a/{x}/{x}", "/{x...}", "/{$}", "/{", "/a/{x", "a", "", "GET /a", "POST /a", "GET  /a",
	"get /a", "GET /", "example.com/", "example.com/a", "/b/{x...}/c", "/é", "/" + strings.Repeat("x", 10000), "/a b", "//", "/a//b", "/%zz", "GET /a/{x}", "/a/{$}",
	// a literal * segment next to the subtree and the exact forms it could be confused with
	"/a/*", "/*", "/a/*", "/*", "/a/", "/"}
var crashNames = []string{"n1", "n2", "n3", "", "n1", "é", strings.Repeat("n", 5000)}

type routeSpec struct{ name, path string }

func encRoutes(rs []routeSpec) string {
	if len(rs) == 0 {
		return "-"
	}
	p := make([]string, len(rs))
	for i, r := range rs {
		n, q := r.name, r.path
		if len(n) > 20 {
			n = n[:20]
		}
		if len(q) > 40 {
			q = q[:40]
		}
		p[i] = hx(n) + ":" + hx(q)
	}
	return strings.Join(p, ",")
}

// buildRoutes creates the routes through the public constructor; "" when every route was accepted.
func buildRoutes(rs []routeSpec) (httpserver.Routes, string) {
	var out httpserver.Routes
	for _, r := range rs {
		rt, err := httpserver.NewRouteFromHandlerFunc(r.name, r.path, func(w http.ResponseWriter, _ *http.Request) { _, _ = w.Write([]byte("ok")) })
		if err != nil {
			return nil, "routeRejected"
		}
		out = append(out, *rt)
	}
	return out, ""
}

// exerciseHTTP: construct, run briefly, request, reload with a second (possibly bad) route set — once through
// NewConfig in the callback, once as a raw struct copy — and stop. Every step is guarded.
func exerciseHTTP(first, second []routeSpec, raw bool) string {
	routes, rej := buildRoutes(first)
	if rej != "" {
		return "construct=" + rej
	}
	addr := freeAddr()
	var good *httpserver.Config
	out := guarded(func() string {
		cfg, err := httpserver.NewConfig(addr, routes, httpserver.WithDrainTimeout(50*time.Millisecond))
		if err != nil {
			return "construct=configRejected"
		}
		good = cfg
		return "construct=accepted"
	})
	if good == nil {
		return out
	}
	stage := 0
	cb := func() (*httpserver.Config, error) {
		stage++
		if stage == 1 {
			return good, nil
		}
		r2, rej := buildRoutes(second)
		if rej != "" {
			return nil, errors.New("route rejected")
		}
		if raw {
			c := *good
			c.Routes = r2
			c.ReadTimeout++
			return &c, nil
		}
		return httpserver.NewConfig(addr, r2, httpserver.WithDrainTimeout(60*time.Millisecond))
	}
	var runner *httpserver.Runner
	if o := guarded(func() string {
		r, err := httpserver.NewRunner(httpserver.WithConfigCallback(cb), httpserver.WithLogHandler(discard))
		if err != nil {
			return "runnerRejected"
		}
		runner = r
		return ""
	}); o != "" {
		return out + " runner=" + o
	}
	ctx, cancel := context.WithCancel(context.Background())
	defer cancel()
	runRes := make(chan string, 1)
	go func() {
		runRes <- guarded(func() string {
			if err := runner.Run(ctx); err != nil {
				return "error"
			}
			return "ok"
		})
	}()
	for i := 0; i < 600 && !runner.IsRunning(); i++ {
		select {
		case r := <-runRes:
			return out + " run=" + r
		default:
			time.Sleep(500 * time.Microsecond)
		}
	}
	reload := guarded(func() string {
		runner.Reload(context.Background())
		return "state" + runner.GetState()
	})
	stop := guarded(func() string { runner.Stop(); return "ok" })
	var run string
	select {
	case run = <-runRes:
	case <-time.After(3 * time.Second):
		run = "hung"
	}
	return out + " reload=" + reload + " stop=" + stop + " run=" + run
}

type quietStateable struct {
	name string
}

func (q quietStateable) String() string { return q.name }
func (q quietStateable) Run(ctx context.Context) error {
	<-ctx.Done()
	return nil
}
func (q quietStateable) Stop()            {}
func (q quietStateable) IsRunning() bool  { return true }
func (q quietStateable) GetState() string { return "Running" }
func (q quietStateable) GetStateChan(ctx context.Context) <-chan string {
	ch := make(chan string, 1)
	ch <- "Running"
	go func() { <-ctx.Done(); close(ch) }()
	return ch
}

func runCrash(o Opts) {
	e := NewEmitter(o.Out, "crash")
	defer e.Close(o.Out, "crash", nil)
	r := newRand(o.Seed, 19)
	type res struct{ req, ans, key string }
	var mu sync.Mutex
	var results []res
	var wg sync.WaitGroup
	sem := make(chan struct{}, 16)
	submit := func(kind string, f func() (string, string)) {
		wg.Add(1)
		sem <- struct{}{}
		go func() {
			defer wg.Done()
			defer func() { <-sem }()
			desc, ans := f()
			mu.Lock()
			results = append(results, res{"c19holds " + kind + " " + desc + " " + strings.ReplaceAll(ans, " ", ";"), "true", kind + " " + desc})
			mu.Unlock()
		}()
	}
	n := 150
	if o.Thorough {
		n = 2500
	}
	if o.N > 0 {
		n = o.N
	}
	genRoutes := func() []routeSpec {
		k := 1 + r.IntN(3)
		if r.IntN(12) == 0 {
			k = 0
		}
		rs := make([]routeSpec, k)
		for i := range rs {
			rs[i] = routeSpec{crashNames[r.IntN(len(crashNames))], crashPaths[r.IntN(len(crashPaths))]}
			if r.IntN(3) != 0 && rs[i].name == "" {
				rs[i].name = "n9"
			}
		}
		return rs
	}
	// 1. route sets at construction and at reload time (through NewConfig, and as a raw struct copy)
	corpus := [][2][]routeSpec{
		{{{"a", "/a"}, {"b", "/a"}}, {{"a", "/a"}}},               // duplicate path at construction
		{{{"a", "/a"}}, {{"a", "/a"}, {"b", "/a"}}},               // duplicate path at reload time
		{{{"a", "/a/{x}"}}, {{"a", "/a/{x}"}, {"b", "/a/{y}"}}},   // conflicting wildcards at reload time
		{{{"a", "/"}}, {{"a", "a"}}},                              // no leading slash at reload time
		{{{"a", "/"}}, {{"a", "/{"}}},                             // malformed wildcard at reload time
		{{{"a", "GET /a"}, {"b", "POST /a"}}, {{"a", "GET  /a"}}}, // method patterns
	}
	for _, c := range corpus {
		for _, raw := range []bool{false, true} {
			c, raw := c, raw
			submit("routes", func() (string, string) {
				p1 := make([]string, len(c[0]))
				for i, x := range c[0] {
					p1[i] = x.path
				}
				return fmt.Sprintf("first=%s second=%s raw=%v mux1=%v", encRoutes(c[0]), encRoutes(c[1]), raw, muxPanics(p1)), exerciseHTTP(c[0], c[1], raw)
			})
		}
	}
	for i := 0; i < n; i++ {
		a, b, raw := genRoutes(), genRoutes(), r.IntN(2) == 0
		submit("routes", func() (string, string) {
			p1 := make([]string, len(a))
			for i, x := range a {
				p1[i] = x.path
			}
			return fmt.Sprintf("first=%s second=%s raw=%v mux1=%v", encRoutes(a), encRoutes(b), raw, muxPanics(p1)), exerciseHTTP(a, b, raw)
		})
	}
	// 2. supervisor options
	durs := []time.Duration{-time.Hour, -1, 0, 1, time.Millisecond, 1 << 62}
	for _, si := range []time.Duration{-time.Hour, -1, 0, 1, time.Millisecond, 20 * time.Millisecond} { // (a huge initial delay just sleeps)
		for _, st := range durs {
			for _, sh := range []time.Duration{-1, 0, time.Millisecond, 1 << 62} {
				si, st, sh := si, st, sh
				submit("supopts", func() (string, string) {
					return fmt.Sprintf("initial=%d timeout=%d shutdown=%d", si, st, sh), guarded(func() string {
						ctx, cancel := context.WithCancel(context.Background())
						sv, err := supervisor.New(supervisor.WithContext(ctx), supervisor.WithRunnables(quietStateable{"q"}),
							supervisor.WithStartupInitial(si), supervisor.WithStartupTimeout(st), supervisor.WithShutdownTimeout(sh),
							supervisor.WithLogHandler(discard))
						if err != nil {
							cancel()
							return "construct=rejected"
						}
						done := make(chan string, 1)
						go func() { done <- guarded(func() string { _ = sv.Run(); return "ok" }) }()
						time.Sleep(3 * time.Millisecond)
						cancel()
						select {
						case r := <-done:
							return "construct=accepted run=" + r
						case <-time.After(3 * time.Second):
							return "construct=accepted run=hung"
						}
					})
				})
			}
		}
	}
	// 3. header operations with empty / nil value lists and odd names, through request handling
	hdrMaps := []http.Header{{"X-A": nil}, {"X-A": {}}, {"X-A": {""}}, {"": {"v"}}, {"bad name": {"v"}}, {"X-A": {"v\nw"}}, {"X-A": {"a", "b"}, "X-B": nil}, nil, {}}
	for hi, h := range hdrMaps {
		for oi, mk := range []func(http.Header) httpserver.HandlerFunc{
			func(h http.Header) httpserver.HandlerFunc { return headers.New(h) },
			func(h http.Header) httpserver.HandlerFunc { return headers.NewWithOperations(headers.WithSet(h)) },
			func(h http.Header) httpserver.HandlerFunc { return headers.NewWithOperations(headers.WithAdd(h)) },
			func(h http.Header) httpserver.HandlerFunc {
				return headers.NewWithOperations(headers.WithSetRequest(h))
			},
			func(h http.Header) httpserver.HandlerFunc {
				return headers.NewWithOperations(headers.WithAddRequest(h))
			},
			func(h http.Header) httpserver.HandlerFunc {
				var ks []string
				for k := range h {
					ks = append(ks, k)
				}
				return headers.NewWithOperations(headers.WithRemove(ks...), headers.WithRemoveRequest(ks...))
			},
		} {
			h, mk, hi, oi := h, mk, hi, oi
			submit("headers", func() (string, string) {
				return fmt.Sprintf("map=%d op=%d", hi, oi), guarded(func() string {
					mw := mk(h)
					rt, err := httpserver.NewRouteFromHandlerFunc("r", "/", func(w http.ResponseWriter, _ *http.Request) { _, _ = w.Write([]byte("ok")) }, mw)
					if err != nil {
						return "construct=rejected"
					}
					rec := httptest.NewRecorder()
					rt.ServeHTTP(rec, httptest.NewRequest("GET", "/", nil))
					return "construct=accepted serve=ok"
				})
			})
		}
	}
	// 4. wildcard prefixes
	for pi, p := range []string{"", "/", "a", "/a", "//", "a//", "/é", "/{x}", strings.Repeat("/p", 3000), " ", "/a/"} {
		for qi, q := range []string{"/", "/a", "/a/", "/a/b", "//", "/é/x", "", "/ax"} {
			p, q, pi, qi := p, q, pi, qi
			submit("wildcard", func() (string, string) {
				return fmt.Sprintf("prefix=%d path=%d", pi, qi), guarded(func() string {
					rt, err := httpserver.NewRouteFromHandlerFunc("r", "/", func(w http.ResponseWriter, _ *http.Request) { _, _ = w.Write([]byte("ok")) }, wildcard.New(p))
					if err != nil {
						return "construct=rejected"
					}
					req := httptest.NewRequest("GET", "/", nil)
					req.URL.Path = q
					rt.ServeHTTP(httptest.NewRecorder(), req)
					return "construct=accepted serve=ok"
				})
			})
		}
	}
	// 5. composite configurations with empty / nil entry lists, at construction and at reload time
	for ci, seq := range [][][]int{{{}, {}}, {nil, {0}}, {{0}, {}}, {{0, 1}, nil}, {{}, {0, 1}}} {
		seq, ci := seq, ci
		submit("composite", func() (string, string) {
			return fmt.Sprintf("seq=%d", ci), guarded(func() string {
				pool := []supervisor.Runnable{quietStateable{"a"}, quietStateable{"b"}}
				k := 0
				cb := func() (*composite.Config[supervisor.Runnable], error) {
					idx := k
					if idx >= len(seq) {
						idx = len(seq) - 1
					}
					k++
					var es []composite.RunnableEntry[supervisor.Runnable]
					if seq[idx] != nil {
						es = []composite.RunnableEntry[supervisor.Runnable]{}
					}
					for _, c := range seq[idx] {
						es = append(es, composite.RunnableEntry[supervisor.Runnable]{Runnable: pool[c]})
					}
					return composite.NewConfig("c", es)
				}
				rn, err := composite.NewRunner(cb, composite.WithLogHandler[supervisor.Runnable](discard))
				if err != nil {
					return "construct=rejected"
				}
				ctx, cancel := context.WithCancel(context.Background())
				defer cancel()
				done := make(chan string, 1)
				go func() { done <- guarded(func() string { _ = rn.Run(ctx); return "ok" }) }()
				for i := 0; i < 200 && !rn.IsRunning(); i++ {
					time.Sleep(500 * time.Microsecond)
				}
				rl := guarded(func() string { rn.Reload(context.Background()); return "state" + rn.GetState() })
				_ = rn.String()
				rn.Stop()
				select {
				case r := <-done:
					return "construct=accepted reload=" + rl + " run=" + r
				case <-time.After(3 * time.Second):
					return "construct=accepted reload=" + rl + " run=hung"
				}
			})
		})
	}
	// 6. listen addresses and timeouts
	for ai, addr := range []string{":0", "", "bad", "999.999.1.1:80", "[::1]:0", ":99999", "localhost:0", "127.0.0.1:-1", ":http"} {
		for ti, to := range []time.Duration{-time.Second, 0, time.Nanosecond, 1 << 62} {
			addr, to, ai, ti := addr, to, ai, ti
			submit("addr", func() (string, string) {
				return fmt.Sprintf("addr=%d timeout=%d", ai, ti), guarded(func() string {
					rt, _ := httpserver.NewRouteFromHandlerFunc("r", "/", func(w http.ResponseWriter, _ *http.Request) {})
					cfg, err := httpserver.NewConfig(addr, httpserver.Routes{*rt}, httpserver.WithDrainTimeout(to), httpserver.WithReadTimeout(to),
						httpserver.WithWriteTimeout(to), httpserver.WithIdleTimeout(to))
					if err != nil {
						return "construct=rejected"
					}
					rn, err := httpserver.NewRunner(httpserver.WithConfig(cfg), httpserver.WithLogHandler(discard))
					if err != nil {
						return "construct=rejected"
					}
					ctx, cancel := context.WithCancel(context.Background())
					defer cancel()
					done := make(chan string, 1)
					go func() {
						done <- guarded(func() string {
							if err := rn.Run(ctx); err != nil {
								return "error"
							}
							return "ok"
						})
					}()
					deadline := time.After(7 * time.Second)
					for i := 0; i < 300 && !rn.IsRunning(); i++ {
						select {
						case r := <-done:
							return "construct=accepted run=" + r
						default:
							time.Sleep(time.Millisecond)
						}
					}
					cancel()
					select {
					case r := <-done:
						return "construct=accepted run=" + r
					case <-deadline:
						return "construct=accepted run=hung"
					}
				})
			})
		}
	}
	wg.Wait()
	sort.Slice(results, func(i, j int) bool { return results[i].req < results[j].req })
	for _, x := range results {
		e.Stats["kind:"+strings.Fields(x.key)[0]]++
		for _, f := range strings.Split(strings.Fields(x.req)[len(strings.Fields(x.req))-1], ";") {
			e.Stats["out:"+f]++
		}
		e.Case(x.req, x.ans)
		if !strings.Contains(x.req, "construct=accepted;reload=stateRunning;stop=ok;run=ok") {
			e.Nontrivial(x.key)
		}
	}
}
