package main

import (
	"context"
	"encoding/base64"
	"encoding/json"
	"errors"
	"fmt"
	"io"
	"log/slog"
	"strings"
	"sync"
	"sync/atomic"
	"syscall"
	"time"

	"github.com/robbyt/go-supervisor/supervisor"
)

func init() { commands["sup"] = runSup }

// ---------------------------------------------------------------- event recorder

type evRec struct {
	mu   sync.Mutex
	evs  []string
	last time.Time
	t0   time.Time
	ts   []time.Duration
}

func (r *evRec) add(f string, a ...any) {
	r.mu.Lock()
	r.evs = append(r.evs, fmt.Sprintf(f, a...))
	r.last = time.Now()
	r.ts = append(r.ts, r.last.Sub(r.t0))
	r.mu.Unlock()
}

// addNow records an event whose text is read inside the recorder's critical section: what it reports (a state) is true at
// the event's position in the trace — events recorded before it happened before the reading, nothing between reading and record
func (r *evRec) addNow(text func() string) {
	r.mu.Lock()
	r.evs = append(r.evs, text())
	r.last = time.Now()
	r.ts = append(r.ts, r.last.Sub(r.t0))
	r.mu.Unlock()
}

// addIf records the event if the (non-blocking) action succeeded, atomically with it: nothing the action
// causes can be recorded before the event itself
func (r *evRec) addIf(act func() bool, f string, a ...any) {
	r.mu.Lock()
	if act() {
		r.evs = append(r.evs, fmt.Sprintf(f, a...))
		r.last = time.Now()
		r.ts = append(r.ts, r.last.Sub(r.t0))
	}
	r.mu.Unlock()
}

// supAtRest: every stimulus recorded so far has been taken and answered by complete passes over the Reloadable mocks
func supAtRest(evs []string, sc SupScenario) bool {
	var lt, ld, ac, ar, hup int
	lr := map[string]int{}
	li := map[string]int{}
	for _, e := range evs {
		switch {
		case strings.HasPrefix(e, "LT"):
			lt++
		case strings.HasPrefix(e, "LD"):
			ld++
		case e == "AC":
			ac++
		case e == "AR":
			ar++
		case e == "SG:hup":
			hup++
		case strings.HasPrefix(e, "LR"):
			lr[e[2:]]++
		case strings.HasPrefix(e, "LI"):
			li[e[2:]]++
		}
	}
	if lt != ld || ac != ar {
		return false
	}
	for i, m := range sc.Mocks {
		k := fmt.Sprint(i)
		if len(m.Caps) > 1 && m.Caps[1] == '1' && (lr[k] != ar+hup+ld || li[k] != lr[k]) {
			return false
		}
	}
	return true
}

func (r *evRec) snapshot() ([]string, time.Time) {
	r.mu.Lock()
	defer r.mu.Unlock()
	return append([]string{}, r.evs...), r.last
}

// ---------------------------------------------------------------- scenario

type MockSpec struct {
	Caps       string `json:"caps"` // 4 bits: stateable, reloadable, reloadSender, shutdownSender
	Stop       string `json:"stop"` // "f" free, "l" lifecycle style
	StopMs     int    `json:"stopMs"`
	RunMode    int    `json:"runMode"` // 0 until Stop/cancel, 1 exits by itself after RunMs, 2 never returns
	RunMs      int    `json:"runMs"`
	Outcome    string `json:"outcome"`    // n, c, e
	ReadyPolls int    `json:"readyPolls"` // -1 never ready
	ReloadMs   int    `json:"reloadMs"`
}

type Trigger struct {
	AtMs int    `json:"at"`
	Kind string `json:"kind"` // int term hup other cancel user trig:<j> reloadall rtrig:<j>
}

type SupScenario struct {
	Mocks          []MockSpec `json:"mocks"`
	Triggers       []Trigger  `json:"triggers"`
	StartupInitMs  int        `json:"startupInitMs"`
	StartupTimeout int        `json:"startupTimeoutMs"`
	ShutdownMs     int        `json:"shutdownMs"`
	WB             bool       `json:"wb"`
	QuietMs        int        `json:"quietMs"` // >0: snapshot the trace at this time (no terminating trigger before it)
}

// ---------------------------------------------------------------- mock runnables

type base struct {
	i          int
	spec       MockSpec
	rec        *evRec
	stopCh     chan struct{}
	stopOnce   sync.Once
	runStarted chan struct{}
	runDone    chan struct{}
	teardown   chan struct{}
	polls      atomic.Int32
	live       *atomic.Int32
	trigCh     chan struct{}
	trigMu     sync.Mutex
	rtrigCh    chan struct{}
	state      atomic.Value
}

func newBase(i int, sp MockSpec, rec *evRec, live *atomic.Int32, teardown chan struct{}) *base {
	b := &base{i: i, spec: sp, rec: rec, stopCh: make(chan struct{}), runStarted: make(chan struct{}), runDone: make(chan struct{}),
		teardown: teardown, live: live, trigCh: make(chan struct{}, 1), rtrigCh: make(chan struct{})}
	b.state.Store("New")
	return b
}

func (b *base) String() string { return fmt.Sprintf("m%d", b.i) }

func (b *base) Run(ctx context.Context) error {
	b.rec.add("RI%d", b.i)
	b.live.Add(1)
	b.state.Store("Running")
	close(b.runStarted)
	switch b.spec.RunMode {
	case 0:
		select {
		case <-ctx.Done():
			b.rec.add("CS%d", b.i)
			sleepMs(b.spec.RunMs)
		case <-b.stopCh:
			// still unwinding for RunMs after its own Stop: a Run like this keeps watching its context, and
			// records when the supervisor cancels it (which must not happen before every Stop has returned)
			if b.spec.RunMs > 0 {
				done := time.After(time.Duration(b.spec.RunMs) * time.Millisecond)
				select {
				case <-ctx.Done():
					b.rec.add("CS%d", b.i)
					select { // the unwinding takes its time all the same
					case <-done:
					case <-b.teardown:
					}
				case <-done:
				case <-b.teardown:
				}
			}
		case <-b.teardown:
		}
	case 1:
		select {
		case <-time.After(time.Duration(b.spec.RunMs) * time.Millisecond):
		case <-ctx.Done():
			b.rec.add("CS%d", b.i)
		case <-b.stopCh:
		case <-b.teardown:
		}
	default:
		<-b.teardown
	}
	var err error
	switch b.spec.Outcome {
	case "c":
		err = fmt.Errorf("m%d stopped: %w", b.i, context.Canceled)
	case "e":
		err = fmt.Errorf("err%d", b.i)
	}
	b.state.Store("Stopped")
	b.live.Add(-1)
	b.rec.add("RR%d:%s", b.i, map[string]string{"n": "n", "c": "c", "e": fmt.Sprintf("e%d", b.i)}[b.spec.Outcome])
	close(b.runDone)
	return err
}

func (b *base) Stop() {
	b.rec.add("SI%d", b.i)
	b.stopOnce.Do(func() { close(b.stopCh) })
	sleepMs(b.spec.StopMs)
	if b.spec.Stop == "l" {
		select {
		case <-b.runStarted:
			select {
			case <-b.runDone:
			case <-b.teardown:
				return
			}
		case <-b.teardown:
			return
		}
	}
	b.rec.add("SR%d", b.i)
}

func sleepMs(ms int) {
	if ms > 0 {
		time.Sleep(time.Duration(ms) * time.Millisecond)
	}
}

type mxState struct{ b *base }

func (m mxState) IsRunning() bool {
	n := int(m.b.polls.Add(1))
	ans := m.b.spec.ReadyPolls >= 0 && n > m.b.spec.ReadyPolls
	v := 0
	if ans {
		v = 1
	}
	m.b.rec.add("P%d:%d", m.b.i, v)
	return ans
}
func (m mxState) GetState() string { return m.b.state.Load().(string) }
func (m mxState) GetStateChan(ctx context.Context) <-chan string {
	ch := make(chan string, 1)
	ch <- m.b.state.Load().(string)
	go func() {
		<-ctx.Done()
		close(ch)
	}()
	return ch
}

type mxReload struct{ b *base }

func (m mxReload) Reload(context.Context) {
	m.b.rec.add("LI%d", m.b.i)
	sleepMs(m.b.spec.ReloadMs)
	m.b.rec.add("LR%d", m.b.i)
}

type mxRSender struct{ b *base }

func (m mxRSender) GetReloadTrigger() <-chan struct{} { return m.b.rtrigCh }

type mxSSender struct{ b *base }

func (m mxSSender) GetShutdownTrigger() <-chan struct{} { return m.b.trigCh }

// the sixteen capability combinations (interface satisfaction is static in Go)
type r0000 struct{ *base }
type r1000 struct {
	*base
	mxState
}
type r0100 struct {
	*base
	mxReload
}
type r1100 struct {
	*base
	mxState
	mxReload
}
type r0010 struct {
	*base
	mxRSender
}
type r1010 struct {
	*base
	mxState
	mxRSender
}
type r0110 struct {
	*base
	mxReload
	mxRSender
}
type r1110 struct {
	*base
	mxState
	mxReload
	mxRSender
}
type r0001 struct {
	*base
	mxSSender
}
type r1001 struct {
	*base
	mxState
	mxSSender
}
type r0101 struct {
	*base
	mxReload
	mxSSender
}
type r1101 struct {
	*base
	mxState
	mxReload
	mxSSender
}
type r0011 struct {
	*base
	mxRSender
	mxSSender
}
type r1011 struct {
	*base
	mxState
	mxRSender
	mxSSender
}
type r0111 struct {
	*base
	mxReload
	mxRSender
	mxSSender
}
type r1111 struct {
	*base
	mxState
	mxReload
	mxRSender
	mxSSender
}

func mkRunnable(b *base) supervisor.Runnable {
	s, l, rs, ss := mxState{b}, mxReload{b}, mxRSender{b}, mxSSender{b}
	switch b.spec.Caps {
	case "0000":
		return r0000{b}
	case "1000":
		return r1000{b, s}
	case "0100":
		return r0100{b, l}
	case "1100":
		return r1100{b, s, l}
	case "0010":
		return r0010{b, rs}
	case "1010":
		return r1010{b, s, rs}
	case "0110":
		return r0110{b, l, rs}
	case "1110":
		return r1110{b, s, l, rs}
	case "0001":
		return r0001{b, ss}
	case "1001":
		return r1001{b, s, ss}
	case "0101":
		return r0101{b, l, ss}
	case "1101":
		return r1101{b, s, l, ss}
	case "0011":
		return r0011{b, rs, ss}
	case "1011":
		return r1011{b, s, rs, ss}
	case "0111":
		return r0111{b, l, rs, ss}
	default:
		return r1111{b, s, l, rs, ss}
	}
}

// ---------------------------------------------------------------- running one scenario

type supResult struct {
	events   []string
	quiet    []string
	hung     bool
	late     bool
	live     int
	users    int
	mainRes  string
	passes   int
	leaked   int
	gateLate int // ms by which a gate was passed (poll answered true) after its startup timeout had elapsed
}

// manualCtx is a parent context the scenario ends by hand, with the error of its choice: a context whose
// deadline passes ends with context.DeadlineExceeded, and the harness decides when
type manualCtx struct {
	done chan struct{}
	mu   sync.Mutex
	err  error
}

func (c *manualCtx) Deadline() (time.Time, bool) { return time.Time{}, false }
func (c *manualCtx) Done() <-chan struct{}       { return c.done }
func (c *manualCtx) Value(any) any               { return nil }
func (c *manualCtx) Err() error {
	c.mu.Lock()
	defer c.mu.Unlock()
	return c.err
}
func (c *manualCtx) end(err error) {
	c.mu.Lock()
	if c.err == nil {
		c.err = err
		close(c.done)
	}
	c.mu.Unlock()
}

func classifyRes(err error) string {
	if err == nil {
		return "nil"
	}
	msg := err.Error()
	if strings.HasPrefix(msg, "timeout waiting for runnable to start") {
		if errors.Is(err, context.Canceled) {
			return "Tc"
		}
		return "T"
	}
	if strings.HasPrefix(msg, "err") {
		return "e" + strings.TrimPrefix(msg, "err")
	}
	return "other"
}

func runSupScenario(sc SupScenario) supResult {
	rec := &evRec{t0: time.Now(), last: time.Now()}
	var live atomic.Int32
	teardown := make(chan struct{})
	bases := make([]*base, len(sc.Mocks))
	runnables := make([]supervisor.Runnable, len(sc.Mocks))
	for i, m := range sc.Mocks {
		bases[i] = newBase(i, m, rec, &live, teardown)
		runnables[i] = mkRunnable(bases[i])
	}
	parent := &manualCtx{done: make(chan struct{})}
	cancel0 := func() { parent.end(context.Canceled) }
	defer cancel0()
	var pcOnce sync.Once
	cancel := func() { // the parent context is cancelled (and the event recorded) once
		pcOnce.Do(func() {
			rec.add("PC")
			cancel0()
		})
	}
	deadline := func() { // the parent context's deadline passes: same event, other error
		pcOnce.Do(func() {
			rec.add("PC")
			parent.end(context.DeadlineExceeded)
		})
	}
	mainReturned := make(chan struct{})
	sv, err := supervisor.New(
		supervisor.WithContext(parent),
		supervisor.WithRunnables(runnables...),
		supervisor.WithStartupInitial(time.Duration(sc.StartupInitMs)*time.Millisecond),
		supervisor.WithStartupTimeout(time.Duration(sc.StartupTimeout)*time.Millisecond),
		supervisor.WithShutdownTimeout(time.Duration(sc.ShutdownMs)*time.Millisecond),
		supervisor.WithLogHandler(slog.NewTextHandler(io.Discard, nil)),
	)
	must(err)
	mainDone := make(chan string, 1)
	go func() {
		t0 := time.Now()
		res := sv.Run()
		r := classifyRes(res)
		if r == "T" && time.Since(t0) < time.Duration(sc.StartupTimeout)*time.Millisecond*7/10 {
			r = "Tc" // "startup timeout" reported long before any startup timeout can have elapsed: spurious
		}
		rec.add("MR:%s", r)
		close(mainReturned)
		mainDone <- r
	}()
	var actors sync.WaitGroup
	users := 0
	for _, tr := range sc.Triggers {
		tr := tr
		uid := users
		if tr.Kind == "user" {
			users++
		}
		actors.Add(1)
		go func() {
			defer actors.Done()
			select {
			case <-time.After(time.Duration(tr.AtMs) * time.Millisecond):
			case <-teardown:
				return
			case <-mainReturned: // the scenario is over: triggers that have not fired yet are dropped
				return
			}
			switch {
			case tr.Kind == "int" || tr.Kind == "term" || tr.Kind == "hup" || tr.Kind == "other":
				sig := map[string]syscall.Signal{"int": syscall.SIGINT, "term": syscall.SIGTERM, "hup": syscall.SIGHUP, "other": syscall.SIGUSR1}[tr.Kind]
				rec.add("SG:%s", tr.Kind)
				sv.SendSignal(sig)
			case tr.Kind == "cancel":
				cancel()
			case tr.Kind == "deadline":
				deadline()
			case tr.Kind == "user":
				rec.add("UC%d", uid)
				sv.Shutdown()
				rec.add("UR%d", uid)
			case strings.HasPrefix(tr.Kind, "trig:"):
				var j int
				fmt.Sscanf(tr.Kind, "trig:%d", &j)
				// recorded before the send (under a lock, so the buffered send cannot block): the
				// supervisor may react the instant the value is in the channel
				bases[j].trigMu.Lock()
				if len(bases[j].trigCh) == 0 {
					rec.add("TS%d", j)
					bases[j].trigCh <- struct{}{}
				}
				bases[j].trigMu.Unlock()
			case tr.Kind == "reloadall":
				done := make(chan struct{})
				rec.add("AC")
				go func() { sv.ReloadAll(); rec.add("AR"); close(done) }()
				select {
				case <-done:
				case <-teardown:
				case <-mainReturned:
				}
			case strings.HasPrefix(tr.Kind, "rtrig:"):
				var j int
				fmt.Sscanf(tr.Kind, "rtrig:%d", &j)
				rec.add("LT%d", j)
				select {
				case bases[j].rtrigCh <- struct{}{}:
					rec.add("LD%d", j)
				case <-teardown:
				case <-mainReturned:
				}
			}
		}()
	}
	res := supResult{users: users}
	// wait for Run() to return; give up when nothing has happened for a long while
	idle := time.Duration(sc.ShutdownMs+300) * time.Millisecond
	if sc.QuietMs > 0 {
		time.Sleep(time.Duration(sc.QuietMs) * time.Millisecond)
		// "at rest" means nothing is going on: on a busy machine the stimuli and the passes they cause can run
		// late, so wait until the trace has not grown for 30 ms (2 s at most) before it is taken
		// ... and, while some stimulus that was issued has not been answered yet (a send that has not completed, a
		// ReloadAll() that has not returned, a pass still owed), 400 ms of silence (4 s at most): a goroutine of the
		// harness or of the supervisor that was descheduled for 30 ms on a loaded machine is not a lost request, a
		// request that is still unanswered after 400 ms without any event is
		for k := 0; k < 400; k++ {
			evs, last := rec.snapshot()
			silent := time.Since(last)
			if silent >= 400*time.Millisecond || (silent >= 30*time.Millisecond && supAtRest(evs, sc)) {
				break
			}
			time.Sleep(10 * time.Millisecond)
		}
		res.quiet, _ = rec.snapshot()
		cancel()
	}
	var firstStop time.Duration = -1
loop:
	for {
		select {
		case r := <-mainDone:
			res.mainRes = r
			break loop
		case <-time.After(20 * time.Millisecond):
			_, last := rec.snapshot()
			if time.Since(last) > idle {
				res.hung = true
				break loop
			}
		}
	}
	// let user Shutdown() callers and trailing goroutines finish
	fin := make(chan struct{})
	go func() { actors.Wait(); close(fin) }()
	if !res.hung {
		select {
		case <-fin:
		case <-time.After(idle):
			res.hung = true
		}
		// runnable goroutines of bundled-like runnables finish right after Run() returned
		for k := 0; k < 50 && live.Load() > 0 && sc.WB; k++ {
			time.Sleep(2 * time.Millisecond)
		}
	}
	res.live = int(live.Load())
	evs, _ := rec.snapshot()
	rec.mu.Lock()
	var mrAt time.Duration = -1
	for i, e := range rec.evs {
		if strings.HasPrefix(e, "SI") && firstStop < 0 {
			firstStop = rec.ts[i]
		}
		if strings.HasPrefix(e, "MR:") {
			mrAt = rec.ts[i]
		}
	}
	// a gate begins startupInitial before its first poll; a poll answered true later than the startup timeout
	// after that means the timeout was not honoured
	firstPoll := map[string]time.Duration{}
	for i, e := range evs {
		if strings.HasPrefix(e, "P") && strings.Contains(e, ":") {
			g := e[1:strings.Index(e, ":")]
			if _, ok := firstPoll[g]; !ok {
				firstPoll[g] = rec.ts[i]
			}
			if strings.HasSuffix(e, ":1") {
				elapsed := rec.ts[i] - firstPoll[g] + time.Duration(sc.StartupInitMs)*time.Millisecond
				if lateBy := int((elapsed - time.Duration(sc.StartupTimeout)*time.Millisecond).Milliseconds()); lateBy > res.gateLate {
					res.gateLate = lateBy
				}
			}
		}
	}
	rec.mu.Unlock()
	if sc.WB && firstStop >= 0 && mrAt >= 0 && mrAt-firstStop > time.Duration(sc.ShutdownMs)*time.Millisecond*7/10 {
		res.late = true
	}
	res.events = evs
	close(teardown)
	cancel0()
	return res
}

func encScenario(sc SupScenario) string {
	b, _ := json.Marshal(sc)
	return base64.RawURLEncoding.EncodeToString(b)
}

func supHeader(sc SupScenario, r supResult, withEnd bool) string {
	caps := make([]string, len(sc.Mocks))
	stops := make([]string, len(sc.Mocks))
	for i, m := range sc.Mocks {
		caps[i] = m.Caps
		stops[i] = m.Stop
	}
	wb := 0
	if sc.WB {
		wb = 1
	}
	h := fmt.Sprintf("caps=%s stop=%s wb=%d users=%d", strings.Join(caps, "."), strings.Join(stops, "."), wb, r.users)
	if withEnd {
		b2i := func(b bool) int {
			if b {
				return 1
			}
			return 0
		}
		h += fmt.Sprintf(" end=hung%d.late%d.panic0.live%d.gl%d", b2i(r.hung), b2i(r.late), r.live, r.gateLate)
	}
	return h + " scn~" + encScenario(sc)
}

// supEvents keeps the events the supervisor model speaks about (reload events belong to C05)
func supEvents(evs []string) string {
	var out []string
	for _, e := range evs {
		if strings.HasPrefix(e, "LI") || strings.HasPrefix(e, "LR") || strings.HasPrefix(e, "LT") || strings.HasPrefix(e, "LD") || e == "AC" || e == "AR" {
			continue
		}
		out = append(out, e)
	}
	return strings.Join(out, " ")
}

// ---------------------------------------------------------------- generator

var msGrid = []int{0, 0, 1, 2, 3, 5, 8, 12, 20, 30}

func genSupScenario(r interface{ IntN(int) int }) (SupScenario, string) {
	sc := SupScenario{StartupInitMs: 1 + r.IntN(3), StartupTimeout: 40 + 20*r.IntN(4), ShutdownMs: 1000, WB: true}
	n := 1 + r.IntN(5)
	kind := "wb"
	misbehave := r.IntN(8) == 0
	lifecycleOK := r.IntN(12) == 0 // lifecycle-style Stop together with possible startup failure (finding C02-F2) only sometimes
	for i := 0; i < n; i++ {
		caps := []byte("0000")
		if r.IntN(3) == 0 {
			caps[0] = '1'
		}
		if r.IntN(3) == 0 {
			caps[1] = '1'
		}
		if r.IntN(5) == 0 {
			caps[2] = '1'
		}
		if r.IntN(4) == 0 {
			caps[3] = '1'
		}
		m := MockSpec{Caps: string(caps), Stop: "f", StopMs: msGrid[r.IntN(7)], RunMs: msGrid[r.IntN(7)], Outcome: "n", ReloadMs: msGrid[r.IntN(6)]}
		switch r.IntN(8) {
		case 0:
			m.Outcome = "c"
		case 1:
			m.Outcome = "e"
		}
		if r.IntN(4) == 0 {
			m.RunMode = 1
			m.RunMs = msGrid[r.IntN(len(msGrid))] + r.IntN(40)
		}
		m.ReadyPolls = []int{0, 0, 0, 1, 2, 4, -1}[r.IntN(7)]
		if caps[0] == '1' && m.ReadyPolls != 0 && !lifecycleOK {
			// a gate that may fail: keep the later runnables free-style unless this is an F2 scenario
		}
		if r.IntN(3) == 0 {
			m.Stop = "l"
		}
		sc.Mocks = append(sc.Mocks, m)
	}
	// avoid the known F2 shape unless asked for: lifecycle-style Stop only on runnables that are certainly launched
	if !lifecycleOK {
		risky := false
		for i := range sc.Mocks {
			if risky {
				sc.Mocks[i].Stop = "f"
			}
			m := sc.Mocks[i]
			if m.Caps[0] == '1' && m.ReadyPolls != 0 {
				risky = true // the gate of i may fail (timeout, or an earlier runnable's error while waiting)
			}
		}
	} else {
		kind = "wb_lifecycle_any"
	}
	if misbehave {
		sc.WB = false
		sc.ShutdownMs = 150
		kind = "misbehaving"
		i := r.IntN(n)
		sc.Mocks[i].RunMode = 2
		sc.Mocks[i].Stop = "f"
		if r.IntN(2) == 0 { // returns an error long after the shutdown timeout
			sc.Mocks[i].RunMode = 0
			sc.Mocks[i].RunMs = 250
			sc.Mocks[i].Outcome = "e"
		}
	}
	nt := r.IntN(4)
	kinds := []string{"int", "term", "hup", "other", "cancel", "deadline", "user", "user", "reloadall"}
	for k := 0; k < nt; k++ {
		t := Trigger{AtMs: msGrid[r.IntN(len(msGrid))] + r.IntN(3)*10, Kind: kinds[r.IntN(len(kinds))]}
		if r.IntN(4) == 0 {
			for j, m := range sc.Mocks {
				if m.Caps[3] == '1' && r.IntN(2) == 0 {
					t.Kind = fmt.Sprintf("trig:%d", j)
				}
				if m.Caps[2] == '1' && r.IntN(3) == 0 {
					t.Kind = fmt.Sprintf("rtrig:%d", j)
				}
			}
		}
		if r.IntN(3) == 0 && k > 0 { // close to the previous trigger
			t.AtMs = sc.Triggers[k-1].AtMs + r.IntN(2)
		}
		sc.Triggers = append(sc.Triggers, t)
	}
	if r.IntN(6) == 0 {
		// quiet scenario: only non-terminating stimuli, every gate passes
		kind = "quiet"
		sc.QuietMs = 140
		sc.WB = true
		sc.ShutdownMs = 1000
		var ts []Trigger
		for _, t := range sc.Triggers {
			if t.Kind == "hup" || t.Kind == "other" || t.Kind == "reloadall" || strings.HasPrefix(t.Kind, "rtrig") {
				ts = append(ts, t)
			}
		}
		sc.Triggers = ts
		for i := range sc.Mocks {
			if sc.Mocks[i].ReadyPolls < 0 || sc.Mocks[i].ReadyPolls > 2 {
				sc.Mocks[i].ReadyPolls = 1
			}
			if sc.Mocks[i].Outcome == "e" {
				sc.Mocks[i].Outcome = "c"
			}
			if sc.Mocks[i].RunMode == 2 {
				sc.Mocks[i].RunMode = 0
			}
			sc.Mocks[i].ReloadMs = r.IntN(3)
		}
		// a burst of reload requests from the three sources
		for k := r.IntN(5); k > 0; k-- {
			t := Trigger{AtMs: 20 + msGrid[r.IntN(len(msGrid))], Kind: []string{"hup", "reloadall"}[r.IntN(2)]}
			for j, m := range sc.Mocks {
				if m.Caps[2] == '1' && r.IntN(2) == 0 {
					t.Kind = fmt.Sprintf("rtrig:%d", j)
				}
			}
			sc.Triggers = append(sc.Triggers, t)
		}
		return sc, kind
	}
	// make sure the scenario terminates: a final trigger
	sc.Triggers = append(sc.Triggers, Trigger{AtMs: 70 + r.IntN(30), Kind: []string{"int", "term", "cancel", "user"}[r.IntN(4)]})
	return sc, kind
}

var supCorpus = []SupScenario{
	// ShutdownSender-triggered shutdown (finding C02-F1, fixed): must be prompt
	{Mocks: []MockSpec{{Caps: "0001", Stop: "f", Outcome: "n"}, {Caps: "1000", Stop: "l", Outcome: "n"}}, Triggers: []Trigger{{AtMs: 20, Kind: "trig:0"}},
		StartupInitMs: 1, StartupTimeout: 100, ShutdownMs: 1000, WB: true},
	// parent cancel during the initial sleep of a gate (finding C04-F1, fixed)
	{Mocks: []MockSpec{{Caps: "1000", Stop: "f", Outcome: "n", ReadyPolls: 0}, {Caps: "0000", Stop: "f", Outcome: "n"}}, Triggers: []Trigger{{AtMs: 3, Kind: "cancel"}},
		StartupInitMs: 10, StartupTimeout: 100, ShutdownMs: 1000, WB: true},
	// error returned after the shutdown timeout (finding C02-F3, fixed): must not panic
	{Mocks: []MockSpec{{Caps: "0000", Stop: "f", RunMode: 0, RunMs: 250, Outcome: "e"}}, Triggers: []Trigger{{AtMs: 5, Kind: "int"}},
		StartupInitMs: 1, StartupTimeout: 100, ShutdownMs: 100, WB: false},
	// startup timeout at gate 0 with a later lifecycle-style runnable (finding C02-F2, open)
	{Mocks: []MockSpec{{Caps: "1000", Stop: "f", Outcome: "n", ReadyPolls: -1}, {Caps: "0000", Stop: "l", Outcome: "n"}}, Triggers: nil,
		StartupInitMs: 1, StartupTimeout: 40, ShutdownMs: 300, WB: true},
	// a runnable fails while the supervisor waits at a later gate
	{Mocks: []MockSpec{{Caps: "0000", Stop: "f", RunMode: 1, RunMs: 8, Outcome: "e"}, {Caps: "1000", Stop: "f", Outcome: "n", ReadyPolls: -1}, {Caps: "0000", Stop: "f", Outcome: "n"}},
		StartupInitMs: 1, StartupTimeout: 200, ShutdownMs: 1000, WB: true},
	// a runnable fails between two polls of a later gate, and the gating runnable is ready at the next poll:
	// the failure must end the gate at once and nothing later may start
	// (the gate polls three times at startupInitial, then twice at 3x, 7x, ...: ready at the fourth poll = 30 ms)
	{Mocks: []MockSpec{{Caps: "0000", Stop: "f", RunMode: 1, RunMs: 18, Outcome: "e"}, {Caps: "1000", Stop: "f", Outcome: "n", ReadyPolls: 3}, {Caps: "0000", Stop: "f", Outcome: "n"}},
		StartupInitMs: 10, StartupTimeout: 300, ShutdownMs: 1000, WB: true},
	{Mocks: []MockSpec{{Caps: "1000", Stop: "f", RunMode: 1, RunMs: 36, Outcome: "e", ReadyPolls: 0}, {Caps: "1100", Stop: "f", Outcome: "n", ReadyPolls: 3}, {Caps: "0100", Stop: "f", Outcome: "n"}},
		StartupInitMs: 12, StartupTimeout: 300, ShutdownMs: 1000, WB: true},
	// a reload trigger still pending (the manager is inside a slow pass) when shutdown begins: must stay prompt.
	// The manager's select between the pending request and the cancelled context is a coin flip, hence the copies
	{Mocks: []MockSpec{{Caps: "0110", Stop: "f", Outcome: "n", ReloadMs: 10}}, Triggers: []Trigger{{AtMs: 10, Kind: "hup"}, {AtMs: 13, Kind: "rtrig:0"}, {AtMs: 16, Kind: "term"}},
		StartupInitMs: 1, StartupTimeout: 100, ShutdownMs: 400, WB: true},
	{Mocks: []MockSpec{{Caps: "0110", Stop: "f", Outcome: "n", ReloadMs: 10}}, Triggers: []Trigger{{AtMs: 10, Kind: "hup"}, {AtMs: 13, Kind: "rtrig:0"}, {AtMs: 16, Kind: "int"}},
		StartupInitMs: 1, StartupTimeout: 100, ShutdownMs: 400, WB: true},
	{Mocks: []MockSpec{{Caps: "0110", Stop: "f", Outcome: "n", ReloadMs: 10}, {Caps: "1000", Stop: "f", Outcome: "n"}}, Triggers: []Trigger{{AtMs: 12, Kind: "hup"}, {AtMs: 15, Kind: "rtrig:0"}, {AtMs: 18, Kind: "cancel"}},
		StartupInitMs: 1, StartupTimeout: 100, ShutdownMs: 400, WB: true},
	{Mocks: []MockSpec{{Caps: "0110", Stop: "f", Outcome: "n", ReloadMs: 10}}, Triggers: []Trigger{{AtMs: 10, Kind: "reloadall"}, {AtMs: 13, Kind: "rtrig:0"}, {AtMs: 16, Kind: "user"}},
		StartupInitMs: 1, StartupTimeout: 100, ShutdownMs: 400, WB: true},
	{Mocks: []MockSpec{{Caps: "0110", Stop: "f", Outcome: "n", ReloadMs: 10}}, Triggers: []Trigger{{AtMs: 10, Kind: "hup"}, {AtMs: 13, Kind: "rtrig:0"}, {AtMs: 17, Kind: "term"}},
		StartupInitMs: 1, StartupTimeout: 100, ShutdownMs: 400, WB: true},
	{Mocks: []MockSpec{{Caps: "1110", Stop: "l", Outcome: "n", ReloadMs: 10}}, Triggers: []Trigger{{AtMs: 10, Kind: "hup"}, {AtMs: 13, Kind: "rtrig:0"}, {AtMs: 16, Kind: "term"}},
		StartupInitMs: 1, StartupTimeout: 100, ShutdownMs: 400, WB: true},
	// the last runnable keeps unwinding (and watching its context) for 14 ms after its Stop returned while the earlier
	// ones are still being stopped, slowly: its context must stay alive until every Stop has returned
	{Mocks: []MockSpec{{Caps: "0000", Stop: "f", StopMs: 6, Outcome: "n"}, {Caps: "0000", Stop: "f", StopMs: 6, Outcome: "n"}, {Caps: "0000", Stop: "f", RunMs: 14, Outcome: "n"}},
		Triggers: []Trigger{{AtMs: 8, Kind: "term"}}, StartupInitMs: 1, StartupTimeout: 100, ShutdownMs: 1000, WB: true},
	{Mocks: []MockSpec{{Caps: "1000", Stop: "f", StopMs: 8, Outcome: "n", ReadyPolls: 0}, {Caps: "0100", Stop: "l", RunMs: 12, Outcome: "c"}},
		Triggers: []Trigger{{AtMs: 10, Kind: "int"}}, StartupInitMs: 1, StartupTimeout: 100, ShutdownMs: 1000, WB: true},
	// readiness comes only after the startup timeout (polls at 10, 30, 70, 150 ms; timeout 80 ms; ready at 150 ms)
	{Mocks: []MockSpec{{Caps: "1000", Stop: "f", Outcome: "n", ReadyPolls: 7}, {Caps: "0000", Stop: "f", Outcome: "n"}},
		StartupInitMs: 10, StartupTimeout: 80, ShutdownMs: 1000, WB: true},
	// the supervisor's own context has a deadline that passes while a gate is waiting (long before the startup timeout)
	{Mocks: []MockSpec{{Caps: "1000", Stop: "f", Outcome: "n", ReadyPolls: -1}, {Caps: "0000", Stop: "f", Outcome: "n"}}, Triggers: []Trigger{{AtMs: 20, Kind: "deadline"}},
		StartupInitMs: 2, StartupTimeout: 400, ShutdownMs: 1000, WB: true},
	// shutdown begun on another goroutine (a direct Shutdown() call, a ShutdownSender trigger) with a Run that needs 30 ms
	// to return after its Stop: Run() and every Shutdown() caller return only when it has
	{Mocks: []MockSpec{{Caps: "0000", Stop: "f", RunMs: 30, Outcome: "n"}, {Caps: "0000", Stop: "f", Outcome: "n"}},
		Triggers: []Trigger{{AtMs: 10, Kind: "user"}, {AtMs: 12, Kind: "user"}}, StartupInitMs: 1, StartupTimeout: 100, ShutdownMs: 1000, WB: true},
	{Mocks: []MockSpec{{Caps: "0001", Stop: "f", RunMs: 25, Outcome: "n"}, {Caps: "1000", Stop: "f", RunMs: 10, Outcome: "c", ReadyPolls: 0}},
		Triggers: []Trigger{{AtMs: 10, Kind: "trig:0"}}, StartupInitMs: 1, StartupTimeout: 100, ShutdownMs: 1000, WB: true},
	// two concurrent Shutdown() callers while running
	{Mocks: []MockSpec{{Caps: "0000", Stop: "f", StopMs: 5, Outcome: "n"}, {Caps: "1100", Stop: "l", Outcome: "c", ReadyPolls: 1}}, Triggers: []Trigger{{AtMs: 30, Kind: "user"}, {AtMs: 30, Kind: "user"}, {AtMs: 31, Kind: "int"}},
		StartupInitMs: 1, StartupTimeout: 100, ShutdownMs: 1000, WB: true},
}

func runSup(o Opts) {
	e := NewEmitter(o.Out, "sup")
	defer e.Close(o.Out, "sup", nil)
	type job struct {
		sc   SupScenario
		kind string
	}
	var jobs []job
	if o.Replay != "" {
		for _, l := range replayLines(o.Replay) {
			for _, w := range strings.Fields(l) {
				if strings.HasPrefix(w, "scn~") {
					b, err := base64.RawURLEncoding.DecodeString(strings.TrimPrefix(w, "scn~"))
					must(err)
					var sc SupScenario
					must(json.Unmarshal(b, &sc))
					jobs = append(jobs, job{sc, "replay"})
				}
			}
		}
	} else {
		for _, sc := range supCorpus {
			jobs = append(jobs, job{sc, "corpus"})
		}
		r := newRand(o.Seed, 1)
		n := 1500
		if o.Thorough {
			n = 20000
		}
		if o.N > 0 {
			n = o.N
		}
		for i := 0; i < n; i++ {
			sc, kind := genSupScenario(r)
			jobs = append(jobs, job{sc, kind})
		}
	}
	results := make([]supResult, len(jobs))
	var wg sync.WaitGroup
	sem := make(chan struct{}, 24)
	for i := range jobs {
		wg.Add(1)
		sem <- struct{}{}
		go func(i int) {
			defer wg.Done()
			defer func() { <-sem }()
			results[i] = runSupScenario(jobs[i].sc)
		}(i)
	}
	wg.Wait()
	for i, j := range jobs {
		r := results[i]
		e.Stats["gen:"+j.kind]++
		e.Stats[fmt.Sprintf("n=%d", len(j.sc.Mocks))]++
		e.Stats["main:"+strings.TrimRight(r.mainRes, "0123456789")]++
		if r.hung {
			e.Stats["end:hung"]++
		}
		ev := supEvents(r.events)
		h := supHeader(j.sc, r, true)
		e.Case("supaccept "+h+" "+ev, "accepted")
		for _, c := range []string{"c01holds", "c02holds", "c03holds", "c04holds"} {
			e.Case(c+" "+h+" "+ev, "true")
		}
		// reload path (C05): the same trace projected on the reload events
		e.Case("relaccept "+h+" "+strings.Join(r.events, " "), "accepted")
		e.Case("c05holds "+h+" "+strings.Join(r.events, " "), "true")
		if strings.Contains(strings.Join(r.events, " "), "LI") {
			e.Stats["reload:pass_seen"]++
		}
		if r.quiet != nil {
			e.Case("relaccept quiet=1 "+supHeader(j.sc, r, false)+" "+strings.Join(r.quiet, " "), "accepted")
			e.Case("c05holds quiet=1 "+supHeader(j.sc, r, false)+" "+strings.Join(r.quiet, " "), "true")
		}
		if r.quiet != nil {
			q := supEvents(r.quiet)
			hq := supHeader(j.sc, r, false)
			e.Case("supaccept "+hq+" "+q, "accepted")
			e.Case("c04holds "+hq+" "+q, "true")
			e.Case("c01holds "+hq+" "+q, "true")
		}
		if len(j.sc.Mocks) >= 2 || len(j.sc.Triggers) >= 2 {
			if strings.Contains(ev, "SI") || strings.Contains(ev, "MR") {
				e.Nontrivial(ev)
			}
		}
	}
}
