module github.com/robbyt/go-supervisor/verifharness

go 1.26.0

require github.com/robbyt/go-supervisor v0.0.0

replace github.com/robbyt/go-supervisor => /repo
