module github.com/robbyt/go-supervisor/verifharness

go 1.26.0

require github.com/robbyt/go-supervisor v0.0.0

require github.com/robbyt/go-fsm/v2 v2.3.0 // indirect

replace github.com/robbyt/go-supervisor => /repo
